package rules

import (
	"fmt"
	"os"
	"sort"

	"gldapverif/an"
)

func init() {
	if os.Getenv("GLDAPCHECK_DEBUG") != "" {
		Registry["XSHAPES"] = func(c *Ctx) {
			var names []string
			for _, f := range c.shippedFuncs(G) {
				if (f.Name() == "packet" || f.Name() == "Encode" || f.Name() == "encode") && f.Signature.Recv() != nil {
					names = append(names, an.ShortName(f))
				}
			}
			sort.Strings(names)
			if nm := c.P.Func(G, "newMessage"); nm != nil {
				paths, complete := c.guidedPaths(nm, &symEnv{}, map[string]bool{G + ".decodeControl": true}, 2000)
				fmt.Printf("== newMessage: %d success paths complete=%v\n", len(paths), complete)
				seen := map[string]bool{}
				for _, p := range paths {
					r := p.Res
					line := fmt.Sprintf("   ret=%v undec=%q", r.retExpr, r.undec)
					out := map[string]string{}
					if len(r.retExpr) >= 1 && len(r.retExpr[0]) > 1 && r.retExpr[0][0] == '&' {
						r.fr.fieldsOf(r.retExpr[0][1:], "", out, 0)
					}
					for _, k := range sortedKeys(out) {
						line += fmt.Sprintf("\n      %s = %s", k, out[k])
					}
					for _, a := range p.Asserts {
						line += "\n      " + a
					}
					for _, nt := range r.notes {
						line += "\n      note: " + nt
					}
					if !seen[line] {
						seen[line] = true
						fmt.Println(line)
					}
				}
			}
			for _, n := range []string{"(*Request).NewResponse", "(*Request).NewModifyResponse", "(*Request).NewExtendedResponse", "(*Request).NewBindResponse", "(*Request).NewSearchDoneResponse", "(*Request).NewSearchResponseEntry"} {
				f := c.P.Func(G, n)
				w := &an.Walker{Fn: f}
				atoms := w.CondAtoms()
				fmt.Printf("== %s atoms=%v\n", n, atoms)
				for _, val := range an.Valuations(atoms) {
					r := c.interp(f, &symEnv{}, val, nil)
					fmt.Printf("   [%s] ret=%v undec=%q\n", sortedVals(val), r.retExpr, r.undec)
					if len(r.retExpr) == 1 && len(r.retExpr[0]) > 1 {
						out := map[string]string{}
						r.fr.fieldsOf(r.retExpr[0][1:], "", out, 0)
						for _, k := range sortedKeys(out) {
							fmt.Printf("      %s = %s\n", k, out[k])
						}
					}
					for _, nt := range r.notes {
						fmt.Printf("      note: %s\n", nt)
					}
				}
			}
			for _, n := range names {
				f := c.P.Func(G, n)
				vs, atoms := c.shapeVariants(f)
				fmt.Printf("== %s atoms=%v\n", n, atoms)
				for _, v := range vs {
					fmt.Printf("   [%s]\n      %s\n", sortedVals(v.Val), v.Shape)
					for _, nt := range v.Res.notes {
						fmt.Printf("      note: %s\n", nt)
					}
				}
			}
		}
	}
}
