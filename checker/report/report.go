// Package report collects obligations, matches them against the committed
// known-findings file and writes evidence and replay files.
package report

import (
	"bufio"
	"encoding/json"
	"fmt"
	"os"
	"path/filepath"
	"sort"
	"strings"
	"time"
)

// Status of an obligation.
const (
	Discharged = "discharged"
	Violated   = "violated"
	Undecided  = "undecided"
)

// Obligation is one thing a rule had to establish on the current tree.
type Obligation struct {
	Rule       string `json:"rule"`      // e.g. C05-locked
	Construct  string `json:"construct"` // rule-specific stable key (function, callee, access path); never a line number
	Pos        string `json:"pos"`       // file:line, informational
	Status     string `json:"status"`
	Detail     string `json:"detail,omitempty"` // the guard / path argument that discharged it, or what is missing
	NonTrivial bool   `json:"nontrivial,omitempty"`
}

// Report is the result of checking one property.
type Report struct {
	Prop        string
	Obls        []Obligation
	Notes       []string
	Counts      map[string]int
	Floors      map[string]int // minimum expected Counts; below = checker-cannot-decide
	Assumptions []string
	Explanation string
	NotDecided  []string
	Analysed    []string       // functions analysed
	Extra       map[string]any // extra coverage keys (thorough tier)
	NoEvidence  bool
	fatal       []string
}

// New creates a report.
func New(prop string) *Report {
	return &Report{Prop: prop, Counts: map[string]int{}, Floors: map[string]int{}, Extra: map[string]any{}}
}

func (r *Report) add(rule, construct, pos, status, detail string, nt bool) {
	r.Obls = append(r.Obls, Obligation{Rule: rule, Construct: construct, Pos: pos, Status: status, Detail: detail, NonTrivial: nt})
	r.Counts[rule]++
}

// OK records a discharged obligation that needed a real argument.
func (r *Report) OK(rule, construct, pos, detail string) {
	r.add(rule, construct, pos, Discharged, detail, true)
}

// Trivial records a discharged obligation that needed no argument.
func (r *Report) Trivial(rule, construct, pos, detail string) {
	r.add(rule, construct, pos, Discharged, detail, false)
}

// Fail records a refuted obligation.
func (r *Report) Fail(rule, construct, pos, detail string) {
	r.add(rule, construct, pos, Violated, detail, true)
}

// Unknown records an obligation the rule could not decide (counts as failing).
func (r *Report) Unknown(rule, construct, pos, detail string) {
	r.add(rule, construct, pos, Undecided, detail, true)
}

// Check is OK/Fail by condition.
func (r *Report) Check(cond bool, rule, construct, pos, okDetail, failDetail string) bool {
	if cond {
		r.OK(rule, construct, pos, okDetail)
	} else {
		r.Fail(rule, construct, pos, failDetail)
	}
	return cond
}

// Fatal records that the checker itself cannot decide (missing anchor etc.).
func (r *Report) Fatal(format string, a ...any) {
	r.fatal = append(r.fatal, fmt.Sprintf(format, a...))
}

// Note adds an informational line.
func (r *Report) Note(format string, a ...any) { r.Notes = append(r.Notes, fmt.Sprintf(format, a...)) }

// Floor sets the minimum instance count for a rule.
func (r *Report) Floor(rule string, n int) { r.Floors[rule] = n }

// Count adds to a free-form counter.
func (r *Report) Count(name string, n int) { r.Counts[name] += n }

// Finding is one line of known_findings.jsonl.
type Finding struct {
	Property  string `json:"property"`
	Rule      string `json:"rule"`
	Construct string `json:"construct"`
	What      string `json:"what"`
	Status    string `json:"status"` // known | fixed
	Commit    string `json:"commit,omitempty"`
}

// LoadFindings reads the committed findings file (read-only at run time).
func LoadFindings(path string) ([]Finding, error) {
	f, err := os.Open(path)
	if err != nil {
		if os.IsNotExist(err) {
			return nil, nil
		}
		return nil, err
	}
	defer f.Close()
	var out []Finding
	sc := bufio.NewScanner(f)
	sc.Buffer(make([]byte, 1<<20), 1<<20)
	for sc.Scan() {
		line := strings.TrimSpace(sc.Text())
		if line == "" || strings.HasPrefix(line, "#") {
			continue
		}
		var fd Finding
		if err := json.Unmarshal([]byte(line), &fd); err != nil {
			return nil, fmt.Errorf("known_findings: %w", err)
		}
		out = append(out, fd)
	}
	return out, sc.Err()
}

// Outcome of finishing a report.
type Outcome struct {
	Violations int
	Known      int
	ExitCode   int
}

// Finish prints results, writes evidence and replay, and returns the exit code.
func (r *Report) Finish(verifDir, tier string, seed int64, start time.Time, findings []Finding) Outcome {
	known := map[string]Finding{}
	for _, f := range findings {
		if f.Property == r.Prop && f.Status == "known" {
			known[f.Rule+"\x00"+f.Construct] = f
		}
	}
	// floors
	var floorKeys []string
	for k := range r.Floors {
		floorKeys = append(floorKeys, k)
	}
	sort.Strings(floorKeys)
	for _, k := range floorKeys {
		if r.Counts[k] < r.Floors[k] {
			r.Fatal("rule %s examined %d instances, below the confirmed floor %d (vacuous rule)", k, r.Counts[k], r.Floors[k])
		}
	}
	var bad []Obligation
	var knownHit []Obligation
	disch := 0
	nontriv := map[string]bool{}
	for _, o := range r.Obls {
		switch o.Status {
		case Discharged:
			disch++
		default:
			if _, ok := known[o.Rule+"\x00"+o.Construct]; ok {
				knownHit = append(knownHit, o)
			} else {
				bad = append(bad, o)
			}
		}
		if o.NonTrivial {
			nontriv[o.Rule+"\x00"+o.Construct] = true
		}
	}
	out := Outcome{}
	replayRel := filepath.Join("evidence", "replay", r.Prop+".json")
	for _, o := range knownHit {
		f := known[o.Rule+"\x00"+o.Construct]
		fmt.Printf("KNOWN-FINDING: property=%s rule=%s construct=%q at %s: %s\n", r.Prop, o.Rule, o.Construct, o.Pos, f.What)
		out.Known++
	}
	for _, m := range r.fatal {
		fmt.Printf("CHECKER-CANNOT-DECIDE property=%s: %s\n", r.Prop, m)
	}
	if os.Getenv("GLDAPCHECK_VERBOSE") != "" {
		for _, o := range r.Obls {
			if o.Status == Discharged {
				fmt.Printf("  ok %s [%s] %s: %s\n", o.Pos, o.Rule, o.Construct, o.Detail)
			}
		}
		for _, n := range r.Notes {
			fmt.Printf("  note: %s\n", n)
		}
	}
	for _, o := range bad {
		fmt.Printf("  %s %s [%s] %s: %s\n", o.Status, o.Pos, o.Rule, o.Construct, o.Detail)
	}
	out.Violations = len(bad) + len(r.fatal)
	if out.Violations > 0 {
		fmt.Printf("VIOLATION property=%s replay=%s\n", r.Prop, filepath.Join(verifDir, replayRel))
		out.ExitCode = 1
	}
	if r.NoEvidence {
		fmt.Printf("%s: %d obligations, %d discharged, %d known findings, %d violations (%s tier, sub-run)\n", r.Prop, len(r.Obls), disch, out.Known, out.Violations, tier)
		return out
	}
	// replay file (always rewritten; empty list when clean)
	_ = os.MkdirAll(filepath.Join(verifDir, "evidence", "replay"), 0o755)
	rp := map[string]any{"property": r.Prop, "tier": tier, "failed_obligations": bad, "checker_errors": r.fatal,
		"how_to_replay": "bin/gldapcheck -prop " + r.Prop + " -tier " + tier + " (re-derives and re-checks these obligations against /repo's current tree)"}
	writeJSON(filepath.Join(verifDir, replayRel), rp)

	// evidence
	samples := []Obligation{}
	seenRule := map[string]int{}
	for _, o := range r.Obls {
		if seenRule[o.Rule] < 2 && len(samples) < 40 {
			samples = append(samples, o)
			seenRule[o.Rule]++
		}
	}
	for _, o := range bad {
		samples = append(samples, o)
	}
	perRule := map[string]map[string]int{}
	for _, o := range r.Obls {
		m := perRule[o.Rule]
		if m == nil {
			m = map[string]int{}
			perRule[o.Rule] = m
		}
		m[o.Status]++
	}
	if r.Analysed == nil {
		r.Analysed = []string{}
	}
	cov := map[string]any{
		"explanation":         r.Explanation,
		"obligations":         len(r.Obls),
		"discharged":          disch,
		"evaluations":         len(r.Obls),
		"distinct_nontrivial": len(nontriv),
		"rule":                "one obligation per rule+construct derived from /repo's current SSA; non-trivial = needed a guard, path, lock-set or table argument (not a constant-only fact); distinct by rule+construct key",
		"samples":             samples,
		"per_rule":            perRule,
		"counters":            r.Counts,
		"floors":              r.Floors,
		"functions_analysed":  r.Analysed,
		"not_decided":         r.NotDecided,
		"notes":               r.Notes,
		"known_findings_hit":  len(knownHit),
		"checker_cmd":         "bin/gldapcheck -prop " + r.Prop + " -tier " + tier,
		"trusted_base":        []string{"go/types", "golang.org/x/tools/go/ssa v0.29.0", "go/packages loader", "semantics of sync, bufio, net, crypto/tls, context as documented"},
		"exhaustive":          false,
	}
	for k, v := range r.Extra {
		cov[k] = v
	}
	if r.Assumptions == nil {
		r.Assumptions = []string{}
	}
	if r.NotDecided == nil {
		r.NotDecided = []string{}
	}
	if r.Notes == nil {
		r.Notes = []string{}
	}
	ev := map[string]any{
		"property_id": r.Prop,
		"tier":        tier,
		"seed":        seed,
		"level":       "other",
		"coverage":    cov,
		"assumptions": r.Assumptions,
		"wall_s":      time.Since(start).Seconds(),
		"violations":  out.Violations,
	}
	writeJSON(filepath.Join(verifDir, "evidence", r.Prop+".json"), ev)
	fmt.Printf("%s: %d obligations, %d discharged, %d known findings, %d violations (%s tier, %.1fs)\n",
		r.Prop, len(r.Obls), disch, out.Known, out.Violations, tier, time.Since(start).Seconds())
	return out
}

func writeJSON(path string, v any) {
	b, err := json.MarshalIndent(v, "", " ")
	if err != nil {
		fmt.Fprintln(os.Stderr, "evidence marshal:", err)
		return
	}
	if err := os.WriteFile(path, append(b, '\n'), 0o644); err != nil {
		fmt.Fprintln(os.Stderr, "evidence write:", err)
	}
}
