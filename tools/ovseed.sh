#!/bin/bash
# ovseed.sh <patch.diff> [props=all] [binary]: run the checks against /repo + patch
# WITHOUT touching /repo: the patched files are materialised in a scratch
# directory and handed to the checker as an overlay.
set -u
patch=$(readlink -f "$1"); props=${2:-all}; bin=${3:-/verif/bin/gldapcheck}
d=$(mktemp -d /tmp/ovseed.XXXXXX)
trap 'rm -rf "$d"' EXIT
mkdir -p "$d/full" "$d/ov"
git -C /repo archive HEAD | tar -x -C "$d/full"
( cd "$d/full" && patch -s -p1 < "$patch" ) || { echo "patch failed"; exit 2; }
( cd "$d/full" && for f in $(grep -E '^\+\+\+ b/' "$patch" | sed 's#^+++ b/##'); do mkdir -p "$d/ov/$(dirname $f)"; cp "$f" "$d/ov/$f"; done )
"$bin" -prop "$props" -noevidence -overlay "$d/ov" 2>&1 | grep -E "violated|undecided|^C[0-9]+:.* [1-9][0-9]* violations|checker error|FATAL" | cut -c1-${OVCOLS:-260}
exit 0
