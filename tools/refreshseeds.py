#!/usr/bin/env python3
"""Re-runs the checks against every kept seeded change (overlay, /repo untouched) and refreshes the
detection fields of its meta.json. Prints a table. Exit 1 if a seed is not detected by its own property
(unless its meta.json records, under "not_decidable", why no static rule can decide the clause it breaks, or, under
"missed", that it is a known miss of the own property's rules - reported by other properties only - and why)."""
import json, os, re, shutil, subprocess, sys, tempfile
bad = 0
rows = []
for name in sorted(os.listdir('/verif/seeded')):
    d = os.path.join('/verif/seeded', name)
    mp = os.path.join(d, 'meta.json')
    if not os.path.exists(mp):
        continue
    meta = json.load(open(mp))
    t = tempfile.mkdtemp(prefix='/tmp/ovseed.')
    try:
        os.makedirs(t + '/full'); os.makedirs(t + '/ov')
        subprocess.run('git -C /repo archive HEAD | tar -x -C %s/full' % t, shell=True, check=True)
        patch = os.path.join(d, 'patch.diff')
        r = subprocess.run('patch -s -p1 < %s' % patch, shell=True, cwd=t + '/full', capture_output=True, text=True)
        if r.returncode != 0:
            print(name, 'PATCH DOES NOT APPLY', r.stdout[-300:]); bad += 1; continue
        for f in re.findall(r'^\+\+\+ b/(\S+)', open(patch).read(), re.M):
            os.makedirs(os.path.dirname(os.path.join(t, 'ov', f)), exist_ok=True)
            shutil.copy(os.path.join(t, 'full', f), os.path.join(t, 'ov', f))
        out = subprocess.run(['/verif/bin/gldapcheck', '-prop', 'all', '-tier', 'quick', '-noevidence', '-overlay', t + '/ov'], capture_output=True, text=True, cwd='/verif').stdout
    finally:
        shutil.rmtree(t, ignore_errors=True)
    viol = sorted(set(re.findall(r'^(C\d+): .* [1-9]\d* violations', out, re.M)))
    rules = sorted(set(re.findall(r'^\s+(?:violated|undecided) \S+ \[([^\]]+)\]', out, re.M)))
    lines = [l.strip()[:400] for l in out.splitlines() if l.strip().startswith(('violated', 'undecided'))]
    meta['detected_by_properties'] = viol
    meta['detected_by_rules'] = rules
    meta['detected'] = meta['breaks_property'] in viol
    meta['reports'] = lines[:8]
    meta['checks_run'] = 'bin/gldapcheck -prop all -tier quick on /repo HEAD + patch (patched files handed to the checker as an overlay; same result as git -C /repo apply + run + git checkout -- .)'
    meta['checked_against_repo_head'] = subprocess.run(['git', '-C', '/repo', 'log', '--format=%h', '-1'], capture_output=True, text=True).stdout.strip()
    json.dump(meta, open(mp, 'w'), indent=1)
    own = [r for r in rules if r.startswith(meta['breaks_property'] + '-')]
    rows.append((name, meta['breaks_property'], meta['detected'] or ('nd' if meta.get('not_decidable') else ('miss' if meta.get('missed') else False)), own, [r for r in rules if r not in own]))
    if not meta['detected'] and not meta.get('not_decidable') and not meta.get('missed'):
        bad += 1
for name, prop, det, own, other in rows:
    print('| `%s` | %s | %s | %s |' % (name, {True: 'yes', False: '**NO**', 'nd': 'no (value-level clause, not decided: see meta.json)', 'miss': '**no** (known miss of the own property, see meta.json)'}[det], ', '.join(own) or '-', ', '.join(other) or '-'))
sys.exit(1 if bad else 0)
