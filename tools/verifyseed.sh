#!/bin/bash
# Confirms a seeded change: usage tools/verifyseed.sh <srcdir> [extra go test flags]
# - scratch worktree of /repo HEAD under /tmp
# - with the patch: module builds, existing suite passes, demonstration FAILS
# - without the patch: demonstration PASSES
export GOFLAGS=-mod=mod GOPROXY=off GOSUMDB=off GOTOOLCHAIN=local; unset GOWORK
src="$1"; shift
flags="$@"
id=$(basename "$src")
wt=/tmp/vseed_$id
git -C /repo worktree remove --force $wt 2>/dev/null
git -C /repo worktree add --detach $wt HEAD >/dev/null 2>&1 || { echo "cannot create worktree"; exit 2; }
cd $wt
git apply "$src/patch.diff" || { echo "RESULT $id: patch does not apply"; git -C /repo worktree remove --force $wt; exit 1; }
go build ./... || { echo "RESULT $id: does not build"; git -C /repo worktree remove --force $wt; exit 1; }
suite=$(go test -count=1 ./... 2>&1 | tail -4)
echo "$suite" | grep -q "FAIL" && suite_ok=no || suite_ok=yes
# place demos
demos=""
for f in "$src"/*_test.go; do
  [ -f "$f" ] || continue
  pkg=$(grep -m1 '^package ' "$f" | awk '{print $2}')
  case "$pkg" in
    testdirectory|testdirectory_test) cp "$f" testdirectory/; demos="$demos ./testdirectory";;
    main|main_test) cp "$f" examples/simple/; demos="$demos ./examples/simple";;
    *) cp "$f" .; demos="$demos .";;
  esac
done
demos=$(echo $demos | tr ' ' '\n' | sort -u | tr '\n' ' ')
names=$(grep -h '^func Test' "$src"/*_test.go | sed 's/func \(Test[A-Za-z0-9_]*\).*/\1/' | paste -sd'|')
with=$(go test -count=1 $flags -timeout 300s -run "^($names)\$" $demos 2>&1 | tail -30)
echo "$with" | grep -q "^FAIL\|^--- FAIL\|panic:" && with_res=FAIL || with_res=PASS
git apply -R "$src/patch.diff"
without=$(go test -count=1 $flags -timeout 300s -run "^($names)\$" $demos 2>&1 | tail -8)
echo "$without" | grep -q "^FAIL\|^--- FAIL\|panic:" && without_res=FAIL || without_res=PASS
echo "RESULT $id: suite_with_patch_passes=$suite_ok demo_with_patch=$with_res demo_without_patch=$without_res tests=$names"
echo "--- suite with patch:"; echo "$suite"
echo "--- demo with patch (tail):"; echo "$with" | tail -12
echo "--- demo without patch (tail):"; echo "$without" | tail -4
cd /; git -C /repo worktree remove --force $wt
