#!/usr/bin/env python3
"""Stores a confirmed seeded change under /verif/seeded/<name>/ with meta.json.
usage: keepseed.py <srcdir> <name> <property> "<needs to manifest>" [go test flags]
Runs tools/verifyseed.sh (scratch worktree) and the checks against the patch applied to /repo (reverted afterwards)."""
import json, os, re, shutil, subprocess, sys
src, name, prop, needs = sys.argv[1:5]
flags = sys.argv[5:]
dst = os.path.join('/verif/seeded', name)
ver = subprocess.run(['/verif/tools/verifyseed.sh', src] + flags, capture_output=True).stdout.decode('utf-8', 'replace')
m = re.search(r'RESULT \S+: suite_with_patch_passes=(\w+) demo_with_patch=(\w+) demo_without_patch=(\w+) tests=(.*)', ver)
if not m or m.group(1) != 'yes' or m.group(2) != 'FAIL' or m.group(3) != 'PASS':
    print('NOT CONFIRMED:', ver[-1500:]); sys.exit(1)
# run the checks on /repo + patch (materialised as an overlay in a scratch dir; /repo is not touched)
import tempfile
d = tempfile.mkdtemp(prefix='/tmp/ovseed.')
try:
    os.makedirs(d + '/full'); os.makedirs(d + '/ov')
    subprocess.run('git -C /repo archive HEAD | tar -x -C %s/full' % d, shell=True, check=True)
    patch = os.path.abspath(os.path.join(src, 'patch.diff'))
    subprocess.run('patch -s -p1 < %s' % patch, shell=True, check=True, cwd=d + '/full')
    for f in re.findall(r'^\+\+\+ b/(\S+)', open(patch).read(), re.M):
        os.makedirs(os.path.dirname(os.path.join(d, 'ov', f)), exist_ok=True)
        shutil.copy(os.path.join(d, 'full', f), os.path.join(d, 'ov', f))
    out = subprocess.run(['/verif/bin/gldapcheck', '-prop', 'all', '-tier', 'quick', '-noevidence', '-overlay', d + '/ov'], capture_output=True, text=True, cwd='/verif').stdout
finally:
    shutil.rmtree(d, ignore_errors=True)
viol = sorted(set(re.findall(r'^(C\d+): .* [1-9]\d* violations', out, re.M)))
rules = sorted(set(re.findall(r'^\s+(?:violated|undecided) \S+ \[([^\]]+)\]', out, re.M)))
lines = [l.strip()[:400] for l in out.splitlines() if l.strip().startswith(('violated', 'undecided'))]
os.makedirs(dst, exist_ok=True)
shutil.copy(os.path.join(src, 'patch.diff'), dst)
demos = []
for f in os.listdir(src):
    if f.endswith('_test.go'):
        shutil.copy(os.path.join(src, f), dst); demos.append(f)
if os.path.exists(os.path.join(src, 'README.md')):
    shutil.copy(os.path.join(src, 'README.md'), os.path.join(dst, 'AUTHOR_README.md'))
meta = {
    'name': name, 'breaks_property': prop, 'origin': 'independent sub-agent given only the property text and a scratch worktree',
    'needs_to_manifest': needs,
    'demonstration': demos, 'demonstration_tests': m.group(4),
    'confirmed': {'how': 'tools/verifyseed.sh in a scratch worktree of /repo HEAD (removed afterwards): existing suite passes with the patch; demonstration fails with the patch and passes without it' + ((' (go test ' + ' '.join(flags) + ')') if flags else ''),
                  'repo_head': subprocess.run(['git', '-C', '/repo', 'log', '--format=%h', '-1'], capture_output=True, text=True).stdout.strip(),
                  'suite_with_patch': 'pass', 'demo_with_patch': 'FAIL', 'demo_without_patch': 'PASS'},
    'checks_run': 'bin/gldapcheck -prop all -tier quick on /repo HEAD + patch (patched files handed to the checker as an overlay; same result as git -C /repo apply + run + git checkout -- .)',
    'detected_by_properties': viol, 'detected_by_rules': rules, 'detected': prop in viol, 'reports': lines[:8],
}
json.dump(meta, open(os.path.join(dst, 'meta.json'), 'w'), indent=1)
print(name, 'kept; detected by', viol, rules)
