#!/bin/sh
# dev helper: apply a patch to /repo, run checks, always revert.
# usage: tools/trymut.sh <patch> <prop>[,<prop>...]
set -u
patch="$1"; props="$2"
cd /verif
if ! git -C /repo diff --quiet; then echo "/repo is dirty"; exit 2; fi
git -C /repo apply "$patch" || { echo "patch does not apply"; exit 2; }
(cd /repo && go build ./... ) || echo "DOES NOT BUILD"
bin/gldapcheck -prop "$props" -tier quick | grep -v "^C[0-9]*: " 
git -C /repo checkout -- .
git -C /repo status --short | head
