#!/bin/bash
# Runs every behaviour-preserving variant under /verif/benign through all checks (overlay; /repo untouched).
# Prints the alarms, exits 1 if there is any: an alarm on one of these is a false alarm of the machinery.
cd /verif
bad=0
for f in benign/*.diff benign/agents/*.diff benign/agents2/*.diff benign/agents3/*.diff benign/agents4/*.diff benign/agents5/*.diff benign/agents6/*.diff benign/agents7/*.diff benign/agents8/*.diff benign/agents9/*.diff benign/agents10/*.diff benign/agents11/*.diff; do
  out=$(tools/ovseed.sh "$f" all "${1:-/verif/bin/gldapcheck}")
  if [ -n "$out" ]; then echo "=== $f"; echo "$out"; bad=1; fi
done
[ $bad = 0 ] && echo "all benign variants silent"
exit $bad
