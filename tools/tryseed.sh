#!/bin/sh
# dev helper: run all checks against a seeded patch dir (/tmp/seed_out/Cxx or /verif/seeded/xx)
d="$1"
cd /verif
if ! git -C /repo diff --quiet; then echo "/repo is dirty"; exit 2; fi
git -C /repo apply "$d/patch.diff" || { echo "patch does not apply"; exit 2; }
(cd /repo && go build ./... ) || echo "DOES NOT BUILD"
bin/gldapcheck -prop all -tier quick | grep -v " 0 violations" | cut -c1-400
git -C /repo checkout -- .
git -C /repo status --short | head -3
