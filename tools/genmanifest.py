#!/usr/bin/env python3
"""Regenerates /verif/MANIFEST.json from the table below (kept next to the
checker so that the claimed set and the registered rules stay in step)."""
import json, os, subprocess, sys

HERE = os.path.dirname(os.path.dirname(os.path.abspath(__file__)))

ALL = ["C%02d" % i for i in range(1, 21)]

TRUST = ("Trusted base: go/packages loader, go/types, golang.org/x/tools/go/ssa v0.29.0; "
         "documented semantics of sync, bufio, net, crypto/tls, context; asn1-ber v1.5.5 and go-ldap v3.4.6 as libraries. "
         "The check decides structural necessary conditions on /repo's current source; it executes nothing.")

# id -> (technique, level text, design ref, extra note)
CLAIMED = {
    "C05": ("SSA must-held lock-set + path-count typestate + who-calls/who-constructs scans",
            "Sound lock-discipline argument over all schedules: every access to the shared bufio.Writer is inside one critical section of the connection's single mutex that emits exactly one whole frame and flushes it; no schedule is executed.",
            "2/C05", ""),
}

NOT_YET = "rule set designed in DESIGN.md section 2 but not built/armed yet in this round; not claimed until its rules run clean and catch seeded changes"

NA = {}


def main():
    checks = []
    for pid in ALL:
        if pid not in CLAIMED:
            continue
        tech, text, ref, note = CLAIMED[pid]
        checks.append({
            "property_id": pid,
            "quick_cmd": "./run.sh %s quick" % pid,
            "thorough_cmd": "./run.sh %s thorough" % pid,
            "evidence_file": "evidence/%s.json" % pid,
            "replay_cmd_template": "./run.sh %s quick  # re-derives and re-checks the obligations listed in {path}" % pid,
            "engine": "gldapcheck",
            "level_claimed": {"category": "other", "text": text, "design_ref": "DESIGN.md " + ref},
            "level_note": TRUST + ((" " + note) if note else ""),
            "technique": "static analysis: " + tech,
        })
    na = []
    for pid in ALL:
        if pid in CLAIMED:
            continue
        na.append({"property_id": pid, "reason": NA.get(pid, NOT_YET)})
    m = {
        "version": 1,
        "setup_cmd": "cd checker && GOFLAGS=-mod=mod GOPROXY=off GOSUMDB=off GOTOOLCHAIN=local go build -o ../bin/gldapcheck ./cmd/gldapcheck",
        "hooks": {
            "guard": "verif",
            "enable": "none needed: static analysis reads the source; no instrumentation is compiled in",
            "baseline_off_cmd": "cd /repo && go test -vet=off -count=1 ./...",
            "source_commits": [],
            "add_only": True,
        },
        "engines": [{
            "name": "gldapcheck",
            "path": "checker/",
            "serves_properties": sorted(CLAIMED),
            "kind_free_text": "repository-specific static analyser over go/types + go/ssa (value provenance, guard/panic-site discharge, CFG path and lock-set rules, decision tables, BER shape)",
        }],
        "checks": checks,
        "not_applicable": na,
        "notes": "All checks analyse /repo's working tree on every run (packages.Load + SSA build, ~3-6 s) and never execute it. known_findings.jsonl lists genuine defects (fixed or recorded). See DESIGN.md.",
    }
    with open(os.path.join(HERE, "MANIFEST.json"), "w") as f:
        json.dump(m, f, indent=1)
        f.write("\n")
    try:
        import jsonschema
        jsonschema.validate(m, json.load(open("/root/.vp/MANIFEST.schema.json")))
        print("MANIFEST.json valid;", len(checks), "claimed,", len(na), "not applicable")
    except ImportError:
        print("written (jsonschema not available to validate)")


if __name__ == "__main__":
    main()
