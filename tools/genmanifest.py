#!/usr/bin/env python3
"""Regenerates /verif/MANIFEST.json from the table below (kept next to the
checker so that the claimed set and the registered rules stay in step)."""
import json, os, subprocess, sys

HERE = os.path.dirname(os.path.dirname(os.path.abspath(__file__)))

ALL = ["C%02d" % i for i in range(1, 21)]

TRUST = ("Trusted base: go/packages loader, go/types, golang.org/x/tools/go/ssa v0.29.0; "
         "documented semantics of sync, bufio, net, crypto/tls, context; asn1-ber v1.5.5 and go-ldap v3.4.6 as libraries. "
         "The check decides structural necessary conditions on /repo's current source; it executes nothing.")

# id -> (technique, level text, design ref, extra note)
CLAIMED = {
    "C01": ("symbolic interpretation of the decoder's SSA along every success path (forced branches, enumerated forks, one symbolic loop element) giving field origins over the BER tree; comparison with an RFC 4511 table; branch-table extraction for the kind maps",
            "Decides position, accessor, order and completeness of every decoded field, the class/type/tag and child-count assertions, that the decode path gives up only on conditions about the BER shape (never on the bytes of a value), the protocolOp->kind->message->operation bijection and the version gate, for all inputs at once; values are never inspected. ldap.DecompileFilter / ber.ReadPacket are trusted. After a failed read the read loop never reads the connection again (a read that gave up inside ber.ReadPacket has consumed part of a request). Every decoded control is an object allocated by the call that decodes it (no shared or cached instance).",
            "2/C01", ""),
    "C02": ("panic-site enumeration over the decode call-graph slice + forward must-dataflow of guard facts on SSA (access-path keys, callee success summaries, functional-option contexts)",
            "Sound for the enumerated panic classes in gldap's own decode code for every BER tree ber.ReadPacket can return, modulo the listed library facts; the connection-level recover is not accepted as a guard. Library-internal resource exhaustion is not decided. A packet returned by the ber library together with an error is treated as nil until the error is tested; AppendChild dereferences its argument.",
            "2/C02", ""),
    "C03": ("CFG exactly-once counting, range-order and who-writes rules on (*Mux).serve; truth-table comparison of every match() predicate with a reference formula; table agreement for registration and refusal tags",
            "Decides exactly-once, first-match order, predicate semantics of all six route kinds and the shape of the built-in refusal for all route tables and requests; handlers themselves are out of scope.",
            "2/C03", ""),
    "C07": ("goroutine census with deferred-recover dominance check, accept-loop retry path search, exit/containment scans over the connection call-graph slice, ownership of the per-connection reader/writer pair",
            "Decides that every goroutine gldap starts for handler or decode code is fenced by recover() exactly under !disablePanicRecovery and that transient accept errors loop, that the accept loop (helpers included) does no per-connection I/O, and that a connection's buffered reader/writer pair is never reset, replaced or shared outside initConn; the content of bystanders' answers is not decided. No path of the accept loop gives a connWg place back twice (a negative WaitGroup counter panics outside every recover). A map kept in a field of Server / Mux / conn that is written somewhere is accessed only with a mutex held (concurrent map access is a fatal error).",
            "2/C07", ""),
    "C04": ("symbolic interpretation of every response encoder and constructor (BER tree grammar per path, option resolution, callee inlining) compared with the RFC 4511 grammar; setter / option / NewInteger scans",
            "Decides which value ends up in which slot of which tag for all values, option subsets and setter uses; BER length/identifier octets are the library's. Each setter stores its argument on every path (no argument value makes it a no-op). Every Lock of the connection's writer mutex is released on every path (a writer lock left held makes every later response block).",
            "2/C04", ""),
    "C05": ("SSA must-held lock-set + path-count typestate + who-calls/who-constructs scans",
            "Sound lock-discipline argument over all schedules: every access to the shared bufio.Writer is inside one critical section of the connection's single mutex that emits exactly one whole frame and flushes it; no schedule is executed.",
            "2/C05", ""),
    "C06": ("SSA induction-variable provenance + control-dependence of synchronous dispatch sites + wait-edge scan + may-held lock sets at handler calls and handler waits",
            "Decides, for every pipeline, that Request.ID is the read loop's 1,2,3,... counter and that no path of the read loop runs or waits for a handler except for Unbind/StartTLS; scheduler progress is not decided. The read loop itself writes to the client only for Unbind/StartTLS or when it is leaving the loop (a handler blocked in Write holds the writer lock).",
            "2/C06", ""),
    "C08": ("CFG ordering / exactly-once path rules on the per-connection teardown, who-calls scans, WaitGroup pairing",
            "Decides on every exit path: teardown registered first, Wait -> Close -> OnClose each exactly once with the connection's own ID, nobody else closes or reports, Add/Done pairing; the run-time census of goroutines/descriptors is not decided. A connection the accept loop does not hand to the connection goroutine is closed by the loop itself.",
            "2/C08", ""),
    "C09": ("SSA induction-variable and who-writes provenance",
            "Connection ID is a private strictly increasing loop counter, immutable after newConn, returned by the getter and handed unchanged to OnClose; uniqueness within one Run.",
            "2/C09", ""),
    "C10": ("control-dependence + CFG path search from the unbind edge",
            "All clauses structural: unbind decided before any dispatch, answer or further read, nothing read/dispatched after it, handler exactly once iff registered, no response written by gldap.",
            "2/C10", ""),
    "C11": ("necessary-condition check: asynchronous waker on shutdownCtx located by socket-use provenance + dominance, Stop ordering, lock scan",
            "Necessary structural conditions only: an asynchronous read+write deadline/close of every connection's socket on shutdown exists, is armed before the first read and before any blocking socket I/O of the connection goroutine, and stays armed until the handlers have ended; no untracked holder of a connection socket exists and no call outside the shutdown path / connection setup / read loop (or a paired arm-clear) can clear its deadlines; the connection goroutine has no unwakeable blocking operation; every connWg.Add is matched; Stop orders Close/cancel before Wait. The time bound itself is not decided. The watcher - a goroutine or a context.AfterFunc callback - is disarmed only after conn.close() has waited for the handlers.",
            "2/C11", "Timing clause not decided."),
    "C12": ("CFG ordering rules on teardown/Run/Stop exits (must-pass-through, control dependence on the listener-closed atom)",
            "Decides the ordering/pairing quiescence depends on: Done last, every connWg.Add matched and ordered with Stop's Wait (reserved under the lock Stop holds), handlers waited for, no other goroutine handed an accepted connection, listener released on every Run exit, Stop returns nil only after cancel+Wait, idempotent. Kernel port state is not decided. Every accepted connection is handed to the accounted goroutine or closed before the iteration is left; a place is given back at most once.",
            "2/C12", ""),
    "C13": ("control-dependence of the StartTLS dispatch site, value provenance in StartTLS/initConn, lock-set, socket-use discipline scan",
            "Decides that no LDAP read can interleave with the upgrade and that after it all I/O goes through the TLS reader/writer pair built from the handshaken connection, that no deadline armed during the upgrade outlives it, and that every request read is dispatched exactly once; crypto/tls behaviour is trusted. A slot of a channel semaphore taken on the StartTLS path is given back on every exit.",
            "2/C13", ""),
    "C14": ("BER tree grammar of every control encoder (all paths) against RFC 4511 / RFC 2696 / draft-behera-10 / draft-vchu-00; attachment position; truth table of the Behera constructor",
            "Decides agreement of every control's encoding with the published grammars (what an independent client parses; ber.AppendChild modelled as a copy at call time), the attachment of controls in both directions, the Behera constructor's validation, and per-field encode->decode composition through a wire-tree oracle, including that the decoder rejects no value of the field types (integer range arithmetic on its error branches). Values are never inspected. For a well-formed request that carries controls no successful decoding path ends with anything but the decoded list in Controls. decodeControl returns only controls allocated by that call.",
            "2/C14", ""),
    "C15": ("frozen field classification + must-held lock sets (with entry lock sets of private callees) + confinement to the connection goroutine + who-writes scans + closure-capture check",
            "Race freedom on the state of conn, Server, Mux, ResponseWriter and Directory under the stated goroutine structure (fields not in the table are classified from their accesses: sync type / written only during construction / always under one mutex of the struct, otherwise undecided). No schedule is explored. A mutex-guarded slice field that is written in place never has its backing array handed out of the lock (getter results, arguments a callee keeps). Encoders (Encode of controls, packet of responses) do not store through their receiver.",
            "2/C15", ""),
    "C16": ("panic-site enumeration (engine E2) from the exported helper/constructor entries with caller-controlled parameters; sibling layout comparison for SID; order-taint and paired-write scans",
            "Decides panic freedom (enumerated classes) for all argument values and option subsets, deterministic attribute order, paired string/byte values and the Behera constructor's validation table; the value-level inverse clauses are not decided. In ConvertString / SIDBytes / SIDBytesToString an error of a module helper reaches the caller on every path from its failure edge.",
            "2/C16", ""),
    "C17": ("control-dependence of flag stores on net.Listen's error + who-writes + lock-set",
            "Decides the only-if-bound direction for every address and schedule, that Run does not give up between Ready and the first Accept, and that nothing the accept loop does between two Accepts waits for a single client (no server lock taken by connections, no handshake / read / write on the accepted connection), and that a setup deadline taken from a configured timeout is armed only when that timeout is configured; kernel accept behaviour is not decided.",
            "2/C17", ""),
    "C18": ("listener provenance through functional-option summaries, socket-use discipline, constant/provenance checks on the test directory's tls.Config",
            "Decides that on a TLS port the only byte source of a handler is a tls.Conn created from exactly the configured policy (stream provenance of every initConn call), that the test directory's mTLS policy requires and verifies client certificates and that its CA issues leaf certificates only; crypto/tls is trusted. The accept loop performs no handshake or read on an accepted connection, so a peer that stalls there holds up nobody else.",
            "2/C18", ""),
    "C19": ("decision-table walk (engine E4) of the bind handler's CFG over canonical branch atoms, compared row by row with the reference formula",
            "Decides the if-and-only-if of the statement for every user set, DN and password (one symbolic user = existential over the list), independent of transport; and (import of the C01 rules for SimpleBindMessage) that the handler decides on the name and password as sent and that every bind reaches it.",
            "2/C19", ""),
    "C20": ("per-handler effect analysis: stores reachable from the matched entry on every path of each modify arm, success/store pairing by path search, default-code and result-source provenance",
            "Necessary per-handler clauses only (effects exist, success pairs with the store, codes, result source, Set* stores exactly the given population in storage of its own); whole operation histories against a reference model are not replayed.",
            "2/C20", "History clauses not decided."),
}

NOT_YET = "rule set designed in DESIGN.md section 2 but not built/armed yet in this round; not claimed until its rules run clean and catch seeded changes"

NA = {}


def main():
    checks = []
    for pid in ALL:
        if pid not in CLAIMED:
            continue
        tech, text, ref, note = CLAIMED[pid]
        checks.append({
            "property_id": pid,
            "quick_cmd": "./run.sh %s quick" % pid,
            "thorough_cmd": "./run.sh %s thorough" % pid,
            "evidence_file": "evidence/%s.json" % pid,
            "replay_cmd_template": "./run.sh %s quick  # re-derives and re-checks the obligations listed in {path}" % pid,
            "engine": "gldapcheck",
            "level_claimed": {"category": "other", "text": text, "design_ref": "DESIGN.md " + ref},
            "level_note": TRUST + ((" " + note) if note else ""),
            "technique": "static analysis: " + tech,
        })
    na = []
    for pid in ALL:
        if pid in CLAIMED:
            continue
        na.append({"property_id": pid, "reason": NA.get(pid, NOT_YET)})
    m = {
        "version": 1,
        "setup_cmd": "cd checker && GOFLAGS=-mod=mod GOPROXY=off GOSUMDB=off GOTOOLCHAIN=local go build -o ../bin/gldapcheck ./cmd/gldapcheck",
        "hooks": {
            "guard": "verif",
            "enable": "none needed: static analysis reads the source; no instrumentation is compiled in",
            "baseline_off_cmd": "cd /repo && go test -vet=off -count=1 ./...",
            "source_commits": [],
            "add_only": True,
        },
        "engines": [{
            "name": "gldapcheck",
            "path": "checker/",
            "serves_properties": sorted(CLAIMED),
            "kind_free_text": "repository-specific static analyser over go/types + go/ssa (value provenance, guard/panic-site discharge, CFG path and lock-set rules, decision tables, BER shape)",
        }],
        "checks": checks,
        "not_applicable": na,
        "notes": "All checks analyse /repo's working tree on every run (packages.Load + SSA build, ~3-6 s) and never execute it. known_findings.jsonl lists genuine defects (fixed or recorded). See DESIGN.md.",
    }
    with open(os.path.join(HERE, "MANIFEST.json"), "w") as f:
        json.dump(m, f, indent=1)
        f.write("\n")
    try:
        import jsonschema
        jsonschema.validate(m, json.load(open("/root/.vp/MANIFEST.schema.json")))
        print("MANIFEST.json valid;", len(checks), "claimed,", len(na), "not applicable")
    except ImportError:
        print("written (jsonschema not available to validate)")


if __name__ == "__main__":
    main()
